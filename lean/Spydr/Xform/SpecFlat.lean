/-
  Specification side of engine `xform`, part 3: what C09 (flatten) talks about.

  * `walk d x p`: descend from definition `x` along the instance identifiers `p`; returns the instance
    records met on the way and the definition reached.  A *leaf occurrence* is a path from the top
    definition whose last instance references a leaf definition; its hierarchical name is the
    `/`-joined list of the instance names on the path (`slashJoin`).
  * `UAdj`/`ConnU`: connectivity of a design in which every instance has a netlist-wide identifier
    (`IdsUnique`) and every non-leaf definition below top has exactly one instance (`Unique`):
    nodes are wires `(cable identifier, wire position)`, instance pins `(instance identifier, port,
    bit)` — the pin seen from outside and from inside is one node — and top-level port bits.
    For such designs this is the elaborated connectivity `HConn` with the path forgotten
    (hierarchical wires and pins are in bijection with wires and pins of the netlist).

  Nothing here mentions `flatten`.  NO Mathlib import.
-/
import Spydr.Xform.SpecElab

namespace Spydr.Xform

/-- descend from definition `x` along `p`: the instances met and the definition reached -/
def walk (d : Design) : Nat → List Nat → Option (List Inst × Nat)
  | x, [] => some ([], x)
  | x, i :: p =>
    match childById (d.defs x) i with
    | none => none
    | some c =>
      match walk d c.ref p with
      | none => none
      | some (cs, y) => some (c :: cs, y)

/-- `a/b/c` -/
def slashJoin : List String → String
  | [] => ""
  | [n] => n
  | n :: m :: rest => n ++ "/" ++ slashJoin (m :: rest)

def instName (c : Inst) : String := c.name.getD ""

/-- `cs ++ [c]` are the instances on a path from the top definition and `c` instantiates a leaf -/
def LeafOcc (d : Design) (cs : List Inst) (c : Inst) : Prop :=
  ∃ p, walk d d.top p = some (cs ++ [c], c.ref) ∧ (d.defs c.ref).isLeaf = true

/-- C09, instances: the children of the top definition of `d'` are exactly the leaf occurrences of
    `d`, each named by its slash-joined path, with the same leaf definition and data; nothing else
    remains; no identifier twice. -/
structure LeavesOf (d d' : Design) : Prop where
  flat : Flat d'
  sound : ∀ c' ∈ (d'.defs d'.top).children, ∃ cs c, LeafOcc d cs c ∧ c'.id = c.id ∧ c'.ref = c.ref ∧
      c'.data = c.data ∧ c'.name = some (slashJoin ((cs ++ [c]).map instName))
  complete : ∀ cs c, LeafOcc d cs c → ∃ c' ∈ (d'.defs d'.top).children, c'.id = c.id ∧ c'.ref = c.ref ∧
      c'.data = c.data ∧ c'.name = some (slashJoin ((cs ++ [c]).map instName))
  nodup : ((d'.defs d'.top).children.map (·.id)).Nodup

/-- some definition of the design holds instance `c` -/
def InstIn (d : Design) (c : Inst) : Prop := ∃ q, q < d.ndefs ∧ c ∈ (d.defs q).children

inductive UNode where
  | W (cid k : Nat)
  | P (iid pi bit : Nat)
  | T (pi bit : Nat)
  deriving DecidableEq, Repr

/-- a wire touches an instance pin (from outside: the outer pin is on the wire; from inside: the
    inner pin of the instance's definition is on the wire) or a top-level port bit -/
inductive UAdj (d : Design) : UNode → UNode → Prop
  | outer {x : Nat} {c : Cable} {k : Nat} {w : List Pin} {iid pi bit : Nat} :
      x < d.ndefs → c ∈ (d.defs x).cables → c.wires[k]? = some w → Pin.inst iid pi bit ∈ w →
      UAdj d (.W c.id k) (.P iid pi bit)
  | inner {x : Nat} {c : Cable} {k : Nat} {w : List Pin} {j : Inst} {pi bit : Nat} :
      x < d.ndefs → x ≠ d.top → c ∈ (d.defs x).cables → c.wires[k]? = some w → Pin.port pi bit ∈ w →
      InstIn d j → j.ref = x → UAdj d (.W c.id k) (.P j.id pi bit)
  | top {c : Cable} {k : Nat} {w : List Pin} {pi bit : Nat} :
      c ∈ (d.defs d.top).cables → c.wires[k]? = some w → Pin.port pi bit ∈ w →
      UAdj d (.W c.id k) (.T pi bit)

def ConnU (d : Design) : UNode → UNode → Prop := Conn (UAdj d)

/-- leaf pin bits and top-level port bits -/
def UEndpoint (d : Design) : UNode → Prop
  | .W _ _ => False
  | .P iid _ _ => ∃ j, InstIn d j ∧ j.id = iid ∧ (d.defs j.ref).isLeaf = true
  | .T _ _ => True

end Spydr.Xform
