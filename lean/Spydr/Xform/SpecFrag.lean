/-
  Evidence only: executable checks of the hypotheses of the headline theorems on one dumped case, so
  that a run can report how many generated cases lie inside each theorem's fragment
  (`theorem_fragment:<theorem>:in` / `:out:<first failing hypothesis>`).  No theorem and no verdict
  depends on these functions; `Acyclic` and `Unique` are decided here by bounded searches
  (depth `ndefs + 1`, `ndefs` closure rounds), which are exact on the finite table.
  NO Mathlib import (linked into the driver).
-/
import Spydr.Xform.Spec

namespace Spydr.Xform

/-- no instantiation chain of length `n` starts at `x` … i.e. below `x` the hierarchy bottoms out -/
def acycFrom (d : Design) : Nat → Nat → Bool
  | 0, _ => false
  | n + 1, x => (d.defs x).children.all (fun c => acycFrom d n c.ref)

def acyclicCheck (d : Design) : Bool := (List.range d.ndefs).all (acycFrom d (d.ndefs + 1))

def reachStep (d : Design) (s : List Nat) : List Nat :=
  (s ++ s.flatMap (fun q => (d.defs q).children.map (·.ref))).eraseDups

def reachIter (d : Design) : Nat → List Nat → List Nat
  | 0, s => s
  | n + 1, s => reachIter d n (reachStep d s)

def reachSet (d : Design) : List Nat := reachIter d d.ndefs [d.top]

def uniqueCheck (d : Design) : Bool :=
  (reachSet d).all (fun q => (d.defs q).children.all (fun c => (d.defs c.ref).isLeaf || d.refCount c.ref == 1))

/-- first failing hypothesis among the given (name, holds) pairs, or "in" -/
def firstFailing : List (String × Bool) → String
  | [] => "in"
  | (n, ok) :: rest => if ok then firstFailing rest else n

/-- per headline theorem: "in" or the first hypothesis the case violates.
    `flatFuel`: the fuel the harness passes to the flatten model. -/
def fragments (d : Design) (flatFuel : Nat) : List (String × String) :=
  let wf := wfCheck d
  let ac := acyclicCheck d
  let hyp : List (String × Bool) :=
    [("WF", wf), ("IdsUnique", idsUniqueCheck d), ("Acyclic", ac), ("Unique", uniqueCheck d)]
  let named := [("Named", namedCheck d)]
  let fuel := [("fuel>instances", decide ((allInsts d).length < flatFuel))]
  [ ("uniquify_correct", firstFailing [("WF", wf), ("Acyclic", ac)]),
    ("uniquify_wf", firstFailing [("WF", wf)]),
    ("uniquify_preserves_elab", firstFailing [("WF", wf)]),
    ("uniquify_fresh_names", firstFailing [("WF", wf)]),
    ("uniquify_unique", firstFailing [("WF", wf), ("Acyclic", ac)]),
    ("flatten_wf", firstFailing (hyp ++ named ++ fuel)),
    ("flatten_leaves", firstFailing (hyp ++ named ++ fuel)),
    ("flatten_preserves_conn", firstFailing (hyp ++ named)),
    ("flatten_preserves_elab_conn", firstFailing (hyp ++ named ++ fuel)),
    ("flatten_leftovers", firstFailing (hyp ++ named ++ fuel)),
    ("connU_eq_conn", firstFailing hyp) ]

end Spydr.Xform
