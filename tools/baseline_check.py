#!/usr/bin/env python3
"""Run the repository's pinned test suite (BASELINE.json) on a tree and check that every
stable_pass test still passes. usage: baseline_check.py [repo_dir]"""
import json, subprocess, sys, tempfile, os
import xml.etree.ElementTree as ET
repo = sys.argv[1] if len(sys.argv) > 1 else "/repo"
base = json.load(open("/root/.vp/BASELINE.json"))
with tempfile.TemporaryDirectory() as td:
    xmlf = os.path.join(td, "r.xml")
    cmd = base["cmd"].replace("cd /repo", "cd " + repo).replace("<file>", xmlf)
    p = subprocess.run(cmd, shell=True, stdout=subprocess.PIPE, stderr=subprocess.STDOUT, text=True)
    tree = ET.parse(xmlf)
    ok = set()
    bad = set()
    for tc in tree.iter("testcase"):
        name = tc.get("classname") + "::" + tc.get("name")
        if any(ch.tag in ("failure", "error") for ch in tc):
            bad.add(name)
        elif not any(ch.tag == "skipped" for ch in tc):
            ok.add(name)
    want = set(base["stable_pass"])
    missing = sorted(want - ok)
    print("stable_pass: %d, passing now: %d, missing: %d" % (len(want), len(want & ok), len(missing)))
    for m in missing[:20]:
        print("  MISSING", m)
    print(p.stdout.strip().splitlines()[-1])
    sys.exit(1 if missing else 0)
