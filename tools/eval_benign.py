#!/usr/bin/env python3
"""Evaluate property-preserving changes for false alarms:
   tools/eval_benign.py <dir with b*.diff> [--jobs N] [--only PID,PID]
For each b<k>.diff: apply to a scratch worktree of /repo HEAD, confirm the baseline suite is unchanged, run EVERY
claimed check (quick tier, seed 0) with VERIF_REPO=<worktree>; a check that exits non-zero is an alarm to look at.
Evidence of these runs goes to evidence/.scratch (VERIF_REPO set), never to the committed evidence files."""
import glob, json, os, subprocess, sys
from concurrent.futures import ThreadPoolExecutor
d = os.path.abspath(sys.argv[1])
jobs = int(sys.argv[sys.argv.index("--jobs") + 1]) if "--jobs" in sys.argv else 6
claimed = json.load(open("/verif/tools/claimed.json"))
if "--only" in sys.argv:
    claimed = sys.argv[sys.argv.index("--only") + 1].split(",")
tag = os.path.normpath(d).strip("/").replace("/", "_")
WT = "/tmp/benwt-" + tag
subprocess.run("git -C /repo worktree remove --force %s 2>/dev/null; git -C /repo worktree add -q --detach %s HEAD" % (WT, WT), shell=True, check=True)

def run_check(c):
    r = subprocess.run(["./check", c, "--tier", "quick"], cwd=os.environ.get("VERIF_SNAP", "/verif"), env=dict(os.environ, VERIF_REPO=WT, VERIF_SEED="0"),
                       capture_output=True, text=True)
    viol = [l for l in r.stdout.splitlines() if l.startswith("VIOLATION")]
    return c, r.returncode, viol, (r.stdout + r.stderr)[-600:]

res = {}
try:
    pat = sys.argv[sys.argv.index("--glob") + 1] if "--glob" in sys.argv else "b*.diff"
    diffs = sorted(glob.glob(os.path.join(d, pat)))
    if "--pick" in sys.argv:
        want = sys.argv[sys.argv.index("--pick") + 1].split(",")
        diffs = [x for x in diffs if os.path.basename(x)[:-5] in want]
    for diff in diffs:
        k = os.path.basename(diff)[:-5]
        subprocess.run("git -C %s checkout -q -f . && git -C %s clean -fdq" % (WT, WT), shell=True)
        ap = subprocess.run("git -C %s apply %s" % (WT, diff), shell=True, capture_output=True, text=True)
        if ap.returncode != 0:
            # later fix: commits touched neighbouring lines: try a three-way merge (the blobs of the base commit exist)
            ap = subprocess.run("git -C %s apply --3way %s" % (WT, diff), shell=True, capture_output=True, text=True)
            st = subprocess.run("git -C %s diff --name-only --diff-filter=U" % WT, shell=True, capture_output=True, text=True).stdout.strip()
            if ap.returncode != 0 or st:
                print(k, "diff does not apply:", (ap.stderr or st)[:200]); continue
            print(k, "applied by three-way merge")
        base = subprocess.run(["python3", "/verif/tools/baseline_check.py", WT], capture_output=True, text=True)
        alarms = {}
        with ThreadPoolExecutor(jobs) as ex:
            for c, rc, viol, tail in ex.map(run_check, claimed):
                if rc != 0 or viol:
                    alarms[c] = {"exit": rc, "violations": viol[:4], "tail": tail if not viol else ""}
        res[k] = {"baseline_ok": base.returncode == 0, "alarms": alarms}
        print(k, "baseline_ok=%s" % (base.returncode == 0), "ALARMS:" if alarms else "silent", json.dumps(alarms)[:1500] if alarms else "")
        sys.stdout.flush()
finally:
    subprocess.run("git -C /repo worktree remove --force %s" % WT, shell=True)
json.dump(res, open(os.path.join(d, "benign_eval.json" if "--glob" not in sys.argv else "cross_eval.json"), "w"), indent=1)
