#!/usr/bin/env python3
"""Evaluate seeded changes: tools/eval_mutants.py <PID> <dir with m*.diff, m*_demo.py> [checks...]
For each m<k>.diff: apply to a scratch worktree of /repo HEAD, confirm (baseline suite unchanged, demo fails
with / passes without), run the given checks (default: the PID's) with VERIF_REPO=<worktree>, print verdicts."""
import glob, os, subprocess, sys, json
pid, d = sys.argv[1], sys.argv[2]
checks = sys.argv[3:] or [pid]
WT = "/tmp/evalwt-" + pid
subprocess.run("git -C /repo worktree remove --force %s 2>/dev/null; git -C /repo worktree add -q --detach %s HEAD" % (WT, WT), shell=True, check=True)
env = dict(os.environ, PYTHONPATH=WT)
out = []
try:
    for diff in sorted(glob.glob(os.path.join(d, "m*.diff"))):
        k = os.path.basename(diff)[:-5]
        demo = os.path.join(d, k + "_demo.py")
        subprocess.run("git -C %s checkout -q -f . && git -C %s clean -fdq" % (WT, WT), shell=True)
        clean = subprocess.run(["/venv/bin/python", demo], env=env, cwd=WT, capture_output=True, text=True)
        ap = subprocess.run("git -C %s apply %s" % (WT, diff), shell=True, capture_output=True, text=True)
        if ap.returncode != 0:
            out.append((k, "diff does not apply: " + ap.stderr[:200])); continue
        mut = subprocess.run(["/venv/bin/python", demo], env=env, cwd=WT, capture_output=True, text=True)
        base = subprocess.run(["python3", "/verif/tools/baseline_check.py", WT], capture_output=True, text=True)
        confirmed = clean.returncode == 0 and mut.returncode != 0 and base.returncode == 0
        verdicts = {}
        for c in checks:
            r = subprocess.run(["./check", c, "--tier", "quick"], cwd="/verif", env=dict(os.environ, VERIF_REPO=WT), capture_output=True, text=True)
            viol = [l for l in r.stdout.splitlines() if l.startswith("VIOLATION")]
            verdicts[c] = {"exit": r.returncode, "violations": [v.split("replay=")[1][:90] for v in viol][:4]}
        out.append((k, {"confirmed": confirmed, "demo_clean": clean.returncode, "demo_mut": mut.returncode, "baseline_ok": base.returncode == 0, "checks": verdicts}))
        print(k, json.dumps(out[-1][1]))
        sys.stdout.flush()
finally:
    subprocess.run("git -C /repo worktree remove --force %s" % WT, shell=True)
