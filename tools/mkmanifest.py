#!/usr/bin/env python3
"""Regenerate MANIFEST.json from harness/engines/*.meta.json (claimed properties) and
tools/not_applicable.json (reasons for unclaimed ones)."""
import json, os, sys
ROOT = os.path.dirname(os.path.dirname(os.path.abspath(__file__)))
sys.path.insert(0, os.path.join(ROOT, "harness"))
from registry import META  # noqa
props = [json.loads(l)["id"] for l in open(os.path.join(ROOT, "properties.jsonl"))]
na_reasons = {}
p = os.path.join(ROOT, "tools", "not_applicable.json")
if os.path.exists(p):
    na_reasons = json.load(open(p))
claimed = set(json.load(open(os.path.join(ROOT, "tools", "claimed.json"))))
checks, na, engines = [], [], {}
for pid in props:
    m = META.get(pid) if pid in claimed else None
    if not m:
        na.append({"property_id": pid, "reason": na_reasons.get(pid, "not claimed: no sound check for this property has been completed yet (model/proof/correspondence under construction)")})
        continue
    engines.setdefault(m["engine"], []).append(pid)
    checks.append({
        "property_id": pid,
        "quick_cmd": "./check %s --tier quick" % pid,
        "thorough_cmd": "./check %s --tier thorough" % pid,
        "evidence_file": "evidence/%s.json" % pid,
        "replay_cmd_template": "./check %s --replay {path}" % pid,
        "engine": m["engine"],
        "level_claimed": {"category": "proof", "text": m["level_text"], "design_ref": m.get("design_ref", "DESIGN.md §6 " + pid)},
        "level_note": m["level_note"],
        "technique": m.get("technique", "Lean 4 proof over executable model + differential correspondence check"),
    })
LEAN_DIR = {"ir": "IR", "hier": "Hier", "xform": "Xform", "names": "Names", "query": "Query", "compare": "Compare",
            "edif": "Edif", "verilog": "Verilog", "eblif": "Eblif", "io_engine": "IO"}
AUDIT = {"irnames": "Spydr.IR.AuditNames", "irevents": "Spydr.IR.AuditEvents", "irclone": "Spydr.IR.AuditClone"}
EXE = {"io_engine": "drv_io", "irnames": "drv_ir", "irevents": "drv_ir", "irclone": "drv_ir"}
targets = []
for e in sorted(engines):
    for t in (AUDIT.get(e) or "Spydr.%s.Audit" % LEAN_DIR[e], EXE.get(e, "drv_" + e)):
        if t not in targets:
            targets.append(t)
# further audit files some engines use for a single property
for extra in ("Spydr.IO.AuditC16",):
    if os.path.exists(os.path.join(ROOT, "lean", *extra.split(".")) + ".lean") and extra not in targets:
        targets.append(extra)
man = {
    "version": 1,
    "setup_cmd": "cd lean && lake build " + " ".join(targets),
    "hooks": {"guard": "SPYDRNET_VERIF", "enable": "no hooks: checks import spydrnet from /repo's working tree (PYTHONPATH) and read private fields directly",
              "baseline_off_cmd": "cd /repo && /venv/bin/python -m pytest -ra -q -p no:cacheprovider --timeout=900 --continue-on-collection-errors",
              "source_commits": [], "add_only": True},
    "engines": [{"name": e, "path": "harness/engines/%s.py" % e, "serves_properties": ps,
                 "kind_free_text": "Lean 4 model+theorems under lean/Spydr, driver lean/Drivers, Python correspondence harness"} for e, ps in sorted(engines.items())],
    "checks": checks,
    "not_applicable": na,
    "notes": "Every check: (1) lake build of the property's Lean modules + driver, hygiene grep, #print axioms audit; (2) correspondence of the executable Lean model with /repo's working tree on generated inputs; (3) the property's predicate evaluated on the implementation's own outputs. Known findings: known_findings.json + known_findings.d/.",
}
json.dump(man, open(os.path.join(ROOT, "MANIFEST.json"), "w"), indent=1)
print("claimed:", [c["property_id"] for c in checks])
