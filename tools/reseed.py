#!/usr/bin/env python3
"""Re-evaluate seeded changes already filed under /verif/seeded: tools/reseed.py [<dir names>...]
For each seeded/<ID>-m<k>: scratch worktree of /repo HEAD (outside /repo and /verif), apply patch.diff, run the demo
(must fail with / pass without), run `./check <ID> --tier quick` with VERIF_REPO=<worktree>, update meta.json
(checks / detected / detected_with_failing_input / re_evaluated_at_repo_commit). Never touches /repo's tree."""
import glob, json, os, subprocess, sys
WT = "/tmp/reseedwt"
names = sys.argv[1:] or sorted(os.path.basename(p) for p in glob.glob("/verif/seeded/C*-m*"))
head = subprocess.run("git -C /repo rev-parse --short HEAD", shell=True, capture_output=True, text=True).stdout.strip()
subprocess.run("git -C /repo worktree remove --force %s 2>/dev/null; git -C /repo worktree add -q --detach %s HEAD" % (WT, WT), shell=True, check=True)
env = dict(os.environ, PYTHONPATH=WT)
try:
    for n in names:
        d = os.path.join("/verif/seeded", n)
        pid = n.split("-")[0]
        meta = json.load(open(os.path.join(d, "meta.json")))
        subprocess.run("git -C %s checkout -q -f . && git -C %s clean -fdq" % (WT, WT), shell=True)
        clean = subprocess.run(["/venv/bin/python", os.path.join(d, "demo.py")], env=env, cwd=WT, capture_output=True, text=True)
        ap = subprocess.run("git -C %s apply %s" % (WT, os.path.join(d, "patch.diff")), shell=True, capture_output=True, text=True)
        if ap.returncode != 0:
            print(n, "patch no longer applies to", head); continue
        mut = subprocess.run(["/venv/bin/python", os.path.join(d, "demo.py")], env=env, cwd=WT, capture_output=True, text=True)
        checks = list(meta.get("checks", {pid: 0}).keys()) or [pid]
        res = {}
        for c in checks:
            r = subprocess.run(["./check", c, "--tier", "quick"], cwd="/verif", env=dict(os.environ, VERIF_REPO=WT), capture_output=True, text=True)
            viol = [l for l in r.stdout.splitlines() if l.startswith("VIOLATION")]
            res[c] = {"exit": r.returncode, "violation_lines": viol[:6]}
        meta["checks"] = res
        meta["demo_now"] = {"passes_without": clean.returncode == 0, "fails_with": mut.returncode != 0}
        meta["re_evaluated_at_repo_commit"] = head
        meta["detected"] = any(v["exit"] == 1 for v in res.values())
        meta["detected_with_failing_input"] = any(v["exit"] == 1 and any("no-failing-input-found" not in l for l in v["violation_lines"]) for v in res.values())
        if not meta["demo_now"]["fails_with"]:
            meta["status_now"] = "benign on %s: the change's own demo no longer fails (a later fix: commit removed the mechanism it relied on)" % head
        json.dump(meta, open(os.path.join(d, "meta.json"), "w"), indent=1)
        if not meta["demo_now"]["fails_with"]:
            meta["status_now"] = "benign on %s: the change's own demo no longer fails (a later fix: commit removed the mechanism it relied on)" % head
        else:
            meta.pop("status_now", None)
        print(n, "demo", meta["demo_now"], {c: v["exit"] for c, v in res.items()},
              "detected" if meta["detected"] else ("BENIGN-NOW" if not meta["demo_now"]["fails_with"] else "MISSED"))
        sys.stdout.flush()
finally:
    subprocess.run("git -C /repo worktree remove --force %s" % WT, shell=True)
