#!/usr/bin/env python3
"""Collect seeded changes produced by independent sub-agents into /verif/seeded/<PID>-m<k>/ and record which
checks catch them: tools/seed_collect.py <PID> <dir> [extra checks...]"""
import glob, json, os, shutil, subprocess, sys
pid, d = sys.argv[1], sys.argv[2]
# optional numbering offset "--base N": m1 of this batch is filed as m<N+1> (later rounds never overwrite earlier ones)
base_k = 0
if "--base" in sys.argv:
    j = sys.argv.index("--base"); base_k = int(sys.argv[j + 1]); del sys.argv[j:j + 2]
checks = [pid] + sys.argv[3:]
WT = "/tmp/seedwt-" + pid
subprocess.run("git -C /repo worktree remove --force %s 2>/dev/null; git -C /repo worktree add -q --detach %s HEAD" % (WT, WT), shell=True, check=True)
env = dict(os.environ, PYTHONPATH=WT)
head = subprocess.run("git -C /repo rev-parse --short HEAD", shell=True, capture_output=True, text=True).stdout.strip()
try:
    for diff in sorted(glob.glob(os.path.join(d, "m*.diff"))):
        k = os.path.basename(diff)[:-5]
        demo = os.path.join(d, k + "_demo.py")
        txt = os.path.join(d, k + ".txt")
        subprocess.run("git -C %s checkout -q -f . && git -C %s clean -fdq" % (WT, WT), shell=True)
        clean = subprocess.run(["/venv/bin/python", demo], env=env, cwd=WT, capture_output=True, text=True)
        ap = subprocess.run("git -C %s apply %s" % (WT, diff), shell=True, capture_output=True, text=True)
        if ap.returncode != 0:
            print(k, "diff does not apply on", head, ap.stderr[:200]); continue
        mut = subprocess.run(["/venv/bin/python", demo], env=env, cwd=WT, capture_output=True, text=True)
        base = subprocess.run(["python3", "/verif/tools/baseline_check.py", WT], capture_output=True, text=True)
        confirmed = clean.returncode == 0 and mut.returncode != 0 and base.returncode == 0
        verdicts = {}
        for c in checks:
            r = subprocess.run(["./check", c, "--tier", "quick"], cwd="/verif", env=dict(os.environ, VERIF_REPO=WT), capture_output=True, text=True)
            viol = [l.strip() for l in r.stdout.splitlines() if l.startswith("VIOLATION")]
            verdicts[c] = {"exit": r.returncode, "violation_lines": viol[:6]}
        out = os.path.join("/verif/seeded", "%s-m%d" % (pid, base_k + int(k[1:])))
        os.makedirs(out, exist_ok=True)
        shutil.copy(diff, os.path.join(out, "patch.diff"))
        shutil.copy(demo, os.path.join(out, "demo.py"))
        meta = {"property": pid, "needs_to_manifest": open(txt).read().strip() if os.path.exists(txt) else "",
                "applies_to_repo_commit": head,
                "confirmed": {"existing_suite_unchanged": base.returncode == 0, "demo_passes_without": clean.returncode == 0, "demo_fails_with": mut.returncode != 0},
                "ran": ["git apply patch.diff in a scratch worktree of /repo HEAD", "python3 tools/baseline_check.py <worktree>", "demo.py with and without the patch",
                        "VERIF_REPO=<worktree> ./check <id> --tier quick for: " + ", ".join(checks)],
                "checks": verdicts,
                "detected": any(v["exit"] == 1 for v in verdicts.values()),
                "detected_with_failing_input": any(any("no-failing-input-found" not in l for l in v["violation_lines"]) for v in verdicts.values() if v["exit"] == 1)}
        json.dump(meta, open(os.path.join(out, "meta.json"), "w"), indent=1)
        print(k, "confirmed" if confirmed else "NOT-CONFIRMED", {c: v["exit"] for c, v in verdicts.items()})
        sys.stdout.flush()
finally:
    subprocess.run("git -C /repo worktree remove --force %s" % WT, shell=True)
