#!/bin/bash
# tools/sweep.sh <tier> <seed>...   : run every claimed check with the given seeds on the unchanged tree
tier=$1; shift
cd "$(dirname "$0")/.."
for seed in "$@"; do
  for p in $(python3 -c "import json;print(' '.join(json.load(open('tools/claimed.json'))))"); do
    s=$(date +%s)
    out=$(VERIF_SEED=$seed ./check $p --tier $tier 2>&1); rc=$?
    e=$(date +%s)
    echo "seed=$seed $p rc=$rc $((e-s))s $(echo "$out" | grep -c '^VIOLATION') violations :: $(echo "$out" | grep '^VIOLATION' | head -2 | tr '\n' ' ')"
  done
done
